#!/usr/bin/env python3
"""False-alarm test at the level of the contract units (fast): each behaviour-preserving refactor of harmless/H*/patch.diff is applied
in the scratch worktree $VX_REPO and every contract unit that extracts a function from a touched file is run there. Expected: ok, or
undecided (an anchor moved / a construct the verifier does not take). `failed` — a contract obligation that no longer verifies although
the behaviour is the same — is a false alarm of the verifier side and is listed. Writes harmless/UNITS.md.
usage: VX_REPO=/var/tmp/stylua-wt tools/harmless_units.py [ids]"""
import os, sys, json, glob, subprocess, importlib, re
ROOT = os.path.dirname(os.path.dirname(os.path.abspath(__file__)))
WT = os.environ.get("VX_REPO") or sys.exit("set VX_REPO to the scratch worktree")
sys.path.insert(0, os.path.join(ROOT, "vx")); sys.path.insert(0, os.path.join(ROOT, "units"))
import run, registry
from gen import ExtractError, Fn
units = sorted({u for p in registry.PROPS.values() for u in p.get("units", [])})
only = sys.argv[1:]
rows = []
for d in sorted(glob.glob(os.path.join(ROOT, "harmless", "H*"))):
    hid = os.path.basename(d)
    if only and hid not in only: continue
    subprocess.run(["git", "-C", WT, "checkout", "-q", "--", "."])
    files = set(re.findall(r"^\+\+\+ b/(\S+)", open(os.path.join(d, "patch.diff")).read(), re.M))
    if subprocess.run(["git", "-C", WT, "apply", os.path.join(d, "patch.diff")]).returncode: rows.append((hid, ",".join(files), "patch does not apply", "")); continue
    out, bad = [], []
    for u in units:
        mod = importlib.import_module(u)
        if not any(isinstance(it, Fn) and it.file in files for it in mod.UNIT.items): continue
        for fs in mod.UNIT.feature_sets:
            try:
                r = run.run_unit(mod.UNIT, fs, tag="-wt")
                labs = sorted({l for f in r["failures"] for l in (f.get("labels") or f.get("implied_labels") or [f"{f.get('fn')}.total"])})
                note = ("+inlined" if r.get("inlined_helpers") and not all(isinstance(x, str) and x.startswith("not inlined") for x in r["inlined_helpers"]) else "") + ("+auto" if r.get("auto_helpers") else "")
                out.append(f"{u}/{fs}:{r['status']}{note}")
                if r["status"] == "failed": bad.append(f"{u}/{fs}: {', '.join(labs)} :: " + " | ".join((f.get('message') or '')[:80] + ' @ ' + (f.get('text') or '')[:80] for f in r['failures'][:3]))
            except ExtractError as e:
                out.append(f"{u}/{fs}:undecided(anchor)")
    rows.append((hid, ", ".join(sorted(files)), " ".join(out), " ;; ".join(bad)))
    print(rows[-1], flush=True)
subprocess.run(["git", "-C", WT, "checkout", "-q", "--", "."])
# a partial run (ids on the command line) updates its rows only
out = os.path.join(ROOT, "harmless", "UNITS.md")
keep = {}
if os.path.exists(out):
    for line in open(out):
        m = re.match(r"\| (H[\w-]+) \| (.*) \| (.*) \| (.*) \|$", line.rstrip("\n"))
        if m: keep[m.group(1)] = tuple(x for x in m.groups())
for r in rows: keep[r[0]] = tuple(x.replace("|", "/") for x in r)
def key(h):
    m = re.match(r"H(\d+)-(\d+)", h); return (int(m.group(1)), int(m.group(2))) if m else (999, 0)
with open(out, "w") as f:
    f.write("# Behaviour-preserving refactors against the contract units (tools/harmless_units.py)\n\n| refactor | files | units | failed obligations (false alarms) |\n|---|---|---|---|\n")
    for h in sorted(keep, key=key): f.write("| " + " | ".join(keep[h]) + " |\n")
