#!/bin/bash
# Build the dependencies StyLua's extracted functions are type-checked against
# (real full_moon / anyhow / similar from /repo's Cargo.lock) with Verus' pinned toolchain.
# Two feature sets: "default" (full_moon without dialect features = what the baseline suite builds)
# and "all" (luau, lua52, lua53, lua54, luajit = what releases ship); "luajit" and "luau" alone are supported Cargo features of their own
# (full_moon shares some variants between dialects: `//` exists under luau or lua53 — that is how D42 showed).
set -euo pipefail
ROOT="$(cd "$(dirname "$0")/.." && pwd)"
TC=1.98.1-x86_64-unknown-linux-gnu
export CARGO_NET_OFFLINE=true
for fs in default all luajit luau; do
  D="$ROOT/.build/vdeps/$fs"
  if ls "$D"/target/debug/deps/libfull_moon-*.rlib >/dev/null 2>&1 && ls "$D"/target/debug/deps/libec4rs-*.rlib >/dev/null 2>&1 && [ "$D/Cargo.lock" -nt /repo/Cargo.lock ]; then
    continue
  fi
  mkdir -p "$D/src"
  : > "$D/src/lib.rs"
  if [ "$fs" = all ]; then FEAT='features=["luau","lua52","lua53","lua54","luajit"]'; elif [ "$fs" = luajit ]; then FEAT='features=["luajit"]'; elif [ "$fs" = luau ]; then FEAT='features=["luau"]'; else FEAT='features=[]'; fi
  cat > "$D/Cargo.toml" <<TOML
[package]
name = "vdeps"
version = "0.1.0"
edition = "2021"
[dependencies]
full_moon = { version = "=1.2.0", $FEAT }
anyhow = "1.0.75"
similar = { version = "2.3.0", features = ["text", "inline", "serde"] }
ec4rs = "1.0.2"
[workspace]
TOML
  cp /repo/Cargo.lock "$D/Cargo.lock"
  (cd "$D" && RUSTUP_TOOLCHAIN=$TC cargo build --offline 2>&1 | tail -3)
  touch "$D/Cargo.lock"
done
echo vdeps-ok
