#!/bin/bash
# tools/try_seed.sh <patch.diff> <PROP>...   apply a seeded change to /repo, run the checks, undo it
P="$1"; shift
cd /repo || exit 9
if [ -n "$(git status --porcelain --untracked-files=no)" ]; then echo "/repo not clean"; exit 9; fi
git apply "$P" || { echo "patch does not apply"; exit 8; }
for prop in "$@"; do
  ( cd /verif && timeout 1200 ./check "$prop" ${TIER:+--tier $TIER} 2>&1 | tail -${LINES_OUT:-8}; echo "[$prop exit ${PIPESTATUS[0]}]" )
done
git -C /repo checkout -- . 
git -C /repo status --porcelain --untracked-files=no | head -3
