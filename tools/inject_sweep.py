#!/usr/bin/env python3
"""Comment-injection sweep (exploration tool, not a registered check): for each of a fixed set of one-line statements,
insert a line comment / a block comment at every token boundary, format the result with the real library (replay crate,
corpus mode: widths 120, 40, 12) and evaluate the general oracles (parses, same tree, same comments, same literals).
Prints the number of failing positions and one line per failing input. Used to size the D30 class (DESIGN.md §11.1):
C01 / C03 do not hold on the pinned tree for comments in positions the formatter does not expect."""
import sys, os, re, json, subprocess, shutil
sys.path.insert(0, os.path.join(os.path.dirname(os.path.abspath(__file__)), "..", "vx"))
import replay

SNIPPETS = [
    "local x = a + b * c\n", "local x, y = f(a, b), g\n", "x.y[z] = -a ^ b\n", "f(a, b, c)\n", "obj:method(a, {1, 2}):other()\n",
    "if a then b() elseif c then d() else e() end\n", "while a do b() end\n", "repeat a() until b\n", "for i = 1, 10, 2 do f(i) end\n",
    "for k, v in pairs(t) do f(k) end\n", "local function f(a, b, ...) return a, b end\n", "function m.n:o(a) return end\n",
    "local t = { a = 1, [2] = 3, 4; 5 }\n", "return function(x) return x end\n", "do local a = 1 end\n", "local s = ('x'):rep(3) .. \"y\"\n",
    "local x = (a or b) and not c\n", "local x = #t + -n\n", "f{ a = 1 }\n", "f'str'\n", "goto done\n::done::\n",
    "local x <const> = 1\n", "local a = b.c.d.e(f)(g)\n", "x = y == z and 1 or 2\n", "local f = function() end\n",
]
SYNTAX = {"goto done\n::done::\n": "lua52", "local x <const> = 1\n": "lua54"}
TOK = re.compile(r"\s+|[A-Za-z_][A-Za-z0-9_]*|\d+|\"[^\"]*\"|'[^']*'|::|\.\.\.|\.\.|==|~=|<=|>=|[^\sA-Za-z0-9_]")

def main():
    ok, err = replay.build()
    if not ok:
        print("replay crate does not build:", err[-500:]); return 2
    d = os.path.join(replay.ROOT, ".build", "inject")
    shutil.rmtree(d, ignore_errors=True); os.makedirs(d)
    lines = []
    for si, s in enumerate(SNIPPETS):
        pos, bounds = 0, [0]
        for t in TOK.findall(s):
            pos += len(t)
            if not t.isspace(): bounds.append(pos)
        for b in bounds:
            for ci, c in enumerate([" -- x\n", " --[[x]] "]):
                f = os.path.join(d, f"s{si}_b{b}_c{ci}.lua")
                open(f, "w").write(s[:b] + c + s[b:])
                lines.append(f"{f}\t{SYNTAX.get(s, 'lua51')}")
    lst = os.path.join(d, "list")
    open(lst, "w").write("\n".join(lines) + "\n")
    p = subprocess.run([replay.BIN, "corpus", lst, "widths=120,40,12"], capture_output=True, text=True)
    j = json.loads(p.stdout)
    bad = {}
    for f in j["failures"]:
        bad.setdefault(f["file"], []).append((f["column_width"], f["kind"], f["detail"].splitlines()[0][:120]))
    print(f"{len(lines)} injected inputs, {j['files']} parse, {len(bad)} fail at least one oracle at some width")
    for f, v in sorted(bad.items()):
        print(repr(open(f).read()), "::", "; ".join(sorted({k for _, k, _ in v})))
    shutil.rmtree(d, ignore_errors=True)
    return 0

if __name__ == "__main__":
    sys.exit(main())
