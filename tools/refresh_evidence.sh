#!/bin/bash
# run every claimed check's quick command on /repo as it is and validate the evidence files
cd "$(dirname "$0")/.."
[ -n "$(git -C /repo status --porcelain --untracked-files=no)" ] && { echo "/repo has uncommitted changes"; exit 9; }
rc=0
for p in $(python3 -c "import json;print(' '.join(c['property_id'] for c in json.load(open('MANIFEST.json'))['checks']))"); do
  out=$(./check $p 2>&1); e=$?
  echo "$p exit=$e :: $(echo "$out" | tail -1)"
  [ $e -ne 0 ] && rc=1
done
python3-vt - <<'PY'
import json,jsonschema,glob
sch=json.load(open('/root/.vp/EVIDENCE.schema.json'))
m=json.load(open('MANIFEST.json'))
for c in m['checks']:
    e=json.load(open(c['evidence_file'])); jsonschema.validate(e,sch)
    assert e['coverage']['obligations']==e['coverage']['discharged'] or e['coverage'].get('known_findings'), c['property_id']
print('evidence valid for', len(m['checks']), 'checks')
PY
exit $rc
