#!/usr/bin/env python3
"""Consistency of the `proved_in` links: a stub (assumed contract) in one unit that names the unit proving it is compared with the
contract of the verified function there. Textual and conservative: every `ensures` clause of the stub has to occur among the
verified function's `ensures` clauses, and every `requires` clause of the verified function among the stub's `requires`
(whitespace and `//# label` comments aside). A link that does not match this way is reported as `differs`: the stub's contract is
then an assumption that the other unit supports but does not literally prove (different vocabulary, or a weaker / different clause).
usage: tools/check_proved_in.py [-v]"""
import os, sys, re, importlib, json
ROOT = os.path.dirname(os.path.dirname(os.path.abspath(__file__)))
sys.path.insert(0, os.path.join(ROOT, "vx")); sys.path.insert(0, os.path.join(ROOT, "units"))
from gen import Fn
import registry

def split_top(s):
    out, depth, cur = [], 0, ""
    for ch in s:
        if ch in "([{": depth += 1
        elif ch in ")]}": depth -= 1
        if ch == "," and depth == 0:
            out.append(cur); cur = ""
        else: cur += ch
    if cur.strip(): out.append(cur)
    return out

def clauses(contract):
    c = re.sub(r"//[^\n]*", "", contract or "")
    c = re.split(r"\bdecreases\b", c)[0]
    m = re.split(r"\bensures\b", c, maxsplit=1)
    req = re.sub(r"^\s*requires\b", "", m[0].strip()) if "requires" in m[0] else ""
    ens = m[1] if len(m) > 1 else ""
    norm = lambda x: re.sub(r"\s+", " ", x).strip()
    return {norm(x) for x in split_top(req) if norm(x)}, {norm(x) for x in split_top(ens) if norm(x)}

def links():
    units = sorted({u for p in registry.PROPS.values() for u in p.get("units", [])})
    mods = {u: importlib.import_module(u) for u in units}
    rows = []
    for u, m in mods.items():
        for it in m.UNIT.items:
            if isinstance(it, Fn) and it.mode == "stub" and it.proved_in:
                tgt = mods.get(it.proved_in)
                cand = [x for x in (tgt.UNIT.items if tgt else []) if isinstance(x, Fn) and x.mode == "verify" and x.name == it.name and x.file == it.file and (x.impl_of or None) == (it.impl_of or None)]
                if not cand:
                    rows.append((u, it.qual, it.proved_in, "no verified function of that name in the named unit", [])); continue
                sreq, sens = clauses(it.contract); vreq, vens = clauses(cand[0].contract)
                miss_e = sorted(sens - vens); miss_r = sorted(vreq - sreq)
                rows.append((u, it.qual, it.proved_in, "matches" if not miss_e and not miss_r else "differs", [("ensures not literally proved there", miss_e), ("requires of the proof not required by the stub", miss_r)]))
    return rows

if __name__ == "__main__":
    rows = links()
    ok = [r for r in rows if r[3] == "matches"]
    print(f"{len(rows)} proved_in links: {len(ok)} match textually, {len(rows) - len(ok)} differ")
    for u, q, t, st, det in rows:
        if st != "matches" or "-v" in sys.argv:
            print(f"  {u}: {q} -> {t}: {st}")
            for what, lst in det:
                for x in lst: print(f"      {what}: {x[:160]}")
