#!/usr/bin/env python3
"""Self-test of the contracts (not a registered check): deliberate changes to a scratch copy of /repo's sources, each with the unit
and the obligation label that has to fail — or, for harmless changes, the expectation that the unit still verifies. Guards against
contracts that have gone vacuous or brittle. Works in a scratch git worktree outside /repo and /verif, removed afterwards.

usage: tools/mutation_selftest.py [name-substring]"""
import os, sys, subprocess, shutil, re
ROOT = os.path.dirname(os.path.dirname(os.path.abspath(__file__)))
WT = "/var/tmp/vx-selftest-wt"
EX, LU, BL, GE = "src/formatters/expression.rs", "src/formatters/luau.rs", "src/formatters/block.rs", "src/formatters/general.rs"

FU = "src/formatters/functions.rs"
FA_DOC = "/// Formats a FunctionArgs node.\n"
FA_STR = """            if ctx.config().call_parentheses == CallParenType::Input
                || (ctx.should_omit_string_parens()
                    && !matches!(call_next_node, FunctionCallNextNode::ObscureWithoutParens))
            {"""
FA_TAB = FA_STR.replace("string", "table")
FA_STR_H = "            if written_without_parentheses(ctx, ctx.should_omit_string_parens(), &call_next_node) {"
FA_TAB_H = FA_STR_H.replace("string", "table")
HELPER_BAD = """fn written_without_parentheses(ctx: &Context, omit_parentheses: bool, call_next_node: &FunctionCallNextNode) -> bool {
    let without_parentheses = ctx.config().call_parentheses == CallParenType::Input || omit_parentheses;

    without_parentheses && !matches!(call_next_node, FunctionCallNextNode::ObscureWithoutParens)
}

"""
HELPER_OK = """fn written_without_parentheses(ctx: &Context, omit_parentheses: bool, call_next_node: &FunctionCallNextNode) -> bool {
    if ctx.config().call_parentheses == CallParenType::Input {
        return true;
    }

    let obscure = matches!(call_next_node, FunctionCallNextNode::ObscureWithoutParens);
    omit_parentheses && !obscure
}

"""

# (name, file, old text, new text, unit, feature set, expected: a label that must fail | "ok" | "undecided")
CASES = [
    ("line safety: operator chain not hung behind a comment", EX, "let hang_behind_comment = lhs.has_trailing_comments(CommentSearch::Single);", "let hang_behind_comment = false;", "expr", "all", "C05.hang_binop.line_safe"),
    ("line safety: single-line guard looks at the operator only", EX, "            if lhs.has_trailing_comments(CommentSearch::Single)\n                || binop.token().has_trailing_comments(CommentSearch::Single)\n            {\n                let hanging_shape", "            if binop.token().has_trailing_comments(CommentSearch::Single)\n            {\n                let hanging_shape", "expr", "all", "C01.single_line.line_safe"),
    ("line safety: hanging path forgets comments on the operator", EX, "                || contains_comments(binop)\n                || lhs.has_trailing_comments(CommentSearch::All)", "                || lhs.has_trailing_comments(CommentSearch::All)", "expr", "all", "C05.hanging.line_safe"),
    ("line safety: hanging path looks for block comments only", EX, "                || contains_comments(binop)\n                || lhs.has_trailing_comments(CommentSearch::All)", "                || contains_comments(binop)\n                || lhs.has_trailing_comments(CommentSearch::Multiline)", "expr", "all", "C05.hanging.line_safe"),
    ("line safety: closing parenthesis stays behind a comment", EX, "let end_parens = if expression.has_trailing_comments(CommentSearch::Single) {", "let end_parens = if false {", "expr", "all", "C01.parenthesise_line_safe"),
    ("line safety: no newline before `)` of hung parentheses", EX, "                    end_token.update_leading_trivia(FormatTriviaType::Append(vec![\n                        create_newline_trivia(ctx),\n                        create_indent_trivia(ctx, lhs_shape),\n                    ])),", "                    end_token.update_leading_trivia(FormatTriviaType::Append(vec![\n                        create_indent_trivia(ctx, lhs_shape),\n                    ])),", "expr", "all", "C05.hanging.line_safe"),
    ("line safety: minus keeps a commented operand on its line", EX, "|| (matches!(unop, UnOp::Minus(_)) && expression.has_leading_comments(CommentSearch::All))", "|| (matches!(unop, UnOp::Minus(_)) && expression.has_leading_comments(CommentSearch::Single))", "expr", "all", "C01.unary_operand_below_comment"),
    ("hang_binop: no newline pushed", EX, "    leading_comments.push(create_newline_trivia(ctx));\n    leading_comments.push(create_indent_trivia(ctx, shape));\n", "    leading_comments.push(create_indent_trivia(ctx, shape));\n", "expr", "all", "C01.hang_binop_starts_line"),
    ("hang_binop: trailing trivia kept", EX, "        FormatTriviaType::Replace(vec![Token::new(TokenType::spaces(1))]),\n    )\n}", "        FormatTriviaType::NoChange,\n    )\n}", "expr", "all", "C01.hang_binop_starts_line"),
    ("hang_binop: the operator's trailing comments are not moved", EX, "    leading_comments.append(&mut trailing_comments);\n", "", "expr", "all", "C03.hang_binop_keeps_comments"),
    ("hang_binop: the right operand's leading comments are not moved", EX, "    leading_comments.append(&mut expression_leading_comments);\n", "", "expr", "all", "C03.hang_binop_keeps_comments"),
    ("format_binop: `+` printed as `-`", EX, '        Plus = " + ",', '        Plus = " - ",', "expr", "default", "C02.format_binop_prints_the_operator"),
    ("format_unop: `#` arm dropped", EX, '        Hash = "#",\n', "", "expr", "default", "C05.format_unop_same_operator"),
    ("parentheses: (-a)^b loses them on the single-line path", EX, "ExpressionContext::BinaryLHSExponent\n            } else {\n                ExpressionContext::BinaryLHS\n            };\n            let lhs = format_expression_internal(ctx, lhs, lhs_context, shape);", "ExpressionContext::BinaryLHS\n            } else {\n                ExpressionContext::BinaryLHS\n            };\n            let lhs = format_expression_internal(ctx, lhs, lhs_context, shape);", "expr", "default", "C05.single_line.wf"),
    ("luau: function type in a union loses its parentheses", LU, "                || context.contains_intersect\n                || context.contains_union =>", "                || context.contains_intersect =>", "luau", "all", "C02.luau_type_parentheses_kept"),
    ("luau: generic argument pack loses its parentheses", LU, "        _ if context.within_generic => true,\n", "", "luau", "all", "C02.luau_type_parentheses_kept"),
    ("separator: a space in front of the arguments although comments ended the line", "src/formatters/trivia_util.rs", "        create_indent_trivia(ctx, shape)\n    } else if len >= 2\n        && trivia_is_whitespace", "        separator\n    } else if len >= 2\n        && trivia_is_whitespace", "args", "default", "C10.separator_or_indent"),
    ("separator: format_call always separates with the style's space", "src/formatters/functions.rs", "            let function_call_trivia = vec![trivia_util::separator_or_indent(\n                ctx,\n                &formatted_function_args.leading_trivia(),\n                shape,\n                create_function_call_trivia(ctx),\n            )];", "            let function_call_trivia = vec![create_function_call_trivia(ctx)];", "args", "default", "C11.call_form"),
    ("separator: string argument without parentheses always spaced", "src/formatters/functions.rs", "                    Token::new(TokenType::spaces(1)), // Single space before the token reference\n                );\n                let token_reference = token_reference\n                    .update_leading_trivia(FormatTriviaType::Append(vec![separator]));", "                    Token::new(TokenType::spaces(1)), // Single space before the token reference\n                );\n                let token_reference = token_reference\n                    .update_leading_trivia(FormatTriviaType::Append(vec![Token::new(TokenType::spaces(1))]));", "args", "default", "C10.sugar_argument_separated"),
    ("collapse: is_if_guard no longer asks for a simple block", "src/formatters/stmt.rs", "        && trivia_util::is_block_simple(if_node.block())\n", "", "collapse", "default", "C02.if_guard_is_one_statement"),
    ("collapse: format_if drops the else block", "src/formatters/stmt.rs", "        .with_else(else_block)\n", "        .with_else(None)\n", "collapse", "default", "C02.format_if_keeps_statements"),
    ("collapse: format_if collapses an if with an else", "src/formatters/stmt.rs", "    if_node.else_if().is_none()\n        && if_node.else_block().is_none()\n", "    if_node.else_if().is_none()\n", "collapse", "default", "C02.if_guard_is_one_statement"),
    ("collapse: is_block_simple forgets that a last statement excludes other statements", "src/formatters/trivia_util.rs", "    (block.stmts().next().is_none()\n        && block.last_stmt().is_some()", "    (block.last_stmt().is_some()", "collapse", "default", "C02.simple_block_is_one_statement"),
    ("collapse: a function body with a comment in front of `end` is collapsed", "src/formatters/functions.rs", "        || function_body\n            .end_token()\n            .leading_trivia()\n            .any(trivia_util::trivia_is_comment)\n", "", "collapse", "default", "C03.collapsed_function_has_no_comments"),
    ("bodies: format_while_block returns an empty body", "src/formatters/stmt.rs", "    let block = format_block(ctx, while_block.block(), block_shape);", "    let block = Block::new();", "bodies", "default", "C02.while_keeps_statements"),
    ("bodies: format_numeric_for swaps start and end", "src/formatters/stmt.rs", "        .with_start(start)\n        .with_start_end_comma(start_end_comma)\n        .with_end(end)", "        .with_start(end)\n        .with_start_end_comma(start_end_comma)\n        .with_end(start)", "bodies", "default", "C02.numeric_for_keeps_bounds"),
    ("bodies: format_else_if formats the condition of the wrong node", "src/formatters/stmt.rs", "    let singleline_condition = format_expression(ctx, &condition, shape + 7);", "    let singleline_condition = format_expression(ctx, else_if_node.condition(), shape + 7);", "bodies", "default", "ok"),
    ("bodies: format_repeat_block drops the step of hanging the condition", "src/formatters/stmt.rs", "            hang_expression_trailing_newline(ctx, &condition, shape, None)\n        }\n        false => format_expression(ctx, &condition, shape)\n            .update_trailing_trivia", "            condition.to_owned()\n        }\n        false => format_expression(ctx, &condition, shape)\n            .update_trailing_trivia", "bodies", "default", "ok"),
    ("collapse: format_function_body collapses whatever fits the parameters", "src/formatters/functions.rs", "    let mut singleline_function = !multiline_params && should_collapse;", "    let mut singleline_function = !multiline_params;", "collapse", "all", "C02.function_body_keeps_statements"),
    ("collapse: format_function_body keeps the one-line block although it spans lines", "src/formatters/functions.rs", "                singleline_function = false;\n                create_normal_block()", "                block", "collapse", "all", "ok"),
    ("method call: always one space in front of the arguments", "src/formatters/functions.rs", "            shape,\n            create_function_call_trivia(ctx),\n        )]\n    };", "            shape,\n            Token::new(TokenType::spaces(1)),\n        )]\n    };", "args", "default", "C11.method_call_form"),
    ("method call: arguments stay on the line of a commented method name", "src/formatters/functions.rs", "        vec![\n            create_newline_trivia(ctx),\n            create_indent_trivia(ctx, shape.increment_additional_indent()),\n        ]\n    } else {\n        vec![trivia_util::separator_or_indent(", "        vec![\n            create_indent_trivia(ctx, shape.increment_additional_indent()),\n        ]\n    } else {\n        vec![trivia_util::separator_or_indent(", "args", "default", "C11.method_call_form"),
    ("luau: the members of a hung union are formatted without the union mark", "src/formatters/luau.rs", "                                context.mark_contains_union(),\n                                if is_first { shape } else { hanging_shape },", "                                context,\n                                if is_first { shape } else { hanging_shape },", "luau", "all", "C02.luau_hang_loop"),
    ("luau: the last member of a hung intersection is formatted with the union mark", "src/formatters/luau.rs", "                        context.mark_contains_intersect(),\n                        hanging_shape.reset() + PIPE_LENGTH,", "                        context.mark_contains_union(),\n                        hanging_shape.reset() + PIPE_LENGTH,", "luau", "all", "C02.luau_hang_loop"),
    ("luau: parentheses around a single type are dropped without asking keep_parentheses", "src/formatters/luau.rs", "} else if types.len() == 1 && !keep_parentheses(types.iter().next().unwrap(), context) {", "} else if types.len() == 1 {", "luau", "all", "C02.luau_type_members_keep_parentheses"),
    ("luau: the base of an optional type is formatted without the optional mark", "src/formatters/luau.rs", "                context.mark_within_optional().mark_contains_union(),", "                context.mark_contains_union(),", "luau", "all", "C02.luau_type_members_keep_parentheses"),
    ("luau: union members formatted for the intersection mark", "src/formatters/luau.rs", "                                left,\n                                context.mark_contains_union(),", "                                left,\n                                context.mark_contains_intersect(),", "luau", "all", "C02.luau_type_loop"),
    ("luau: the type of a variadic is formatted without the variadic mark", "src/formatters/luau.rs", "                context.mark_within_variadic(),\n                shape + 3,", "                context,\n                shape + 3,", "luau", "all", "C02.luau_type_members_keep_parentheses"),
    ("range: an out-of-range binary expression gets its operands swapped", "src/formatters/stmt.rs", "                lhs: Box::new(format_expression_block(ctx, lhs, shape)),\n                binop: binop.to_owned(),\n                rhs: Box::new(format_expression_block(ctx, rhs, shape)),", "                lhs: Box::new(format_expression_block(ctx, rhs, shape)),\n                binop: binop.to_owned(),\n                rhs: Box::new(format_expression_block(ctx, lhs, shape)),", "range", "default", "C09.expression_blocks_only"),
    ("range: an out-of-range `if` loses its else block", "src/formatters/stmt.rs", "                        .with_else_if(else_if)\n                        .with_else(else_block),", "                        .with_else_if(else_if)\n                        .with_else(None),", "range", "default", "C09.stmt_blocks_only"),
    ("range (blocks are unconstrained by this contract): an out-of-range local function is returned without visiting its block", "src/formatters/stmt.rs", "                let body = local_function.body().to_owned().with_block(block);\n                Stmt::LocalFunction(local_function.to_owned().with_body(body))", "                Stmt::LocalFunction(local_function.to_owned())", "range", "default", "ok"),
    ("range (blocks are unconstrained by this contract): an out-of-range `while` is returned without visiting its block", "src/formatters/stmt.rs", "                Stmt::While(while_block.to_owned().with_block(block))", "                Stmt::While(while_block.to_owned())", "range", "default", "ok"),
    ("harmless: format_while_block chooses the `while` token with if / else instead of a match on a bool", "src/formatters/stmt.rs",
     "    let while_token = match require_multiline_expression {\n        true => fmt_symbol!(ctx, while_block.while_token(), \"while\", shape)\n            .update_trailing_trivia(FormatTriviaType::Append(vec![create_newline_trivia(ctx)])),\n        false => singleline_while_token,\n    }\n    .update_leading_trivia(FormatTriviaType::Append(leading_trivia.to_owned()));",
     "    let while_token = if require_multiline_expression {\n        fmt_symbol!(ctx, while_block.while_token(), \"while\", shape)\n            .update_trailing_trivia(FormatTriviaType::Append(vec![create_newline_trivia(ctx)]))\n    } else {\n        singleline_while_token\n    };\n    let while_token =\n        while_token.update_leading_trivia(FormatTriviaType::Append(leading_trivia.to_owned()));", "bodies", "default", "ok"),
    ("harmless: format_do_block formats the end token before the block and renames its locals", "src/formatters/stmt.rs",
     "    let block_shape = shape.reset().increment_block_indent();\n    let block = format_block(ctx, do_block.block(), block_shape);\n    let end_token = format_end_token(\n        ctx,\n        do_block.end_token(),\n        EndTokenType::IndentComments,\n        shape,\n    )\n    .update_trivia(leading_trivia, trailing_trivia);\n\n    do_block\n        .to_owned()\n        .with_do_token(do_token)\n        .with_block(block)\n        .with_end_token(end_token)",
     "    let closing = format_end_token(\n        ctx,\n        do_block.end_token(),\n        EndTokenType::IndentComments,\n        shape,\n    )\n    .update_trivia(leading_trivia, trailing_trivia);\n    let inner_shape = shape.reset().increment_block_indent();\n    let body = format_block(ctx, do_block.block(), inner_shape);\n\n    do_block\n        .to_owned()\n        .with_block(body)\n        .with_do_token(do_token)\n        .with_end_token(closing)", "bodies", "default", "ok"),
    ("header: a comment behind `while` no longer forces the multiline header", "src/formatters/stmt.rs", "    let require_multiline_expression = singleline_shape.over_budget()\n        || while_block\n            .while_token()\n            .has_trailing_comments(CommentSearch::All)\n        || while_block", "    let require_multiline_expression = singleline_shape.over_budget()\n        || while_block", "bodies", "default", "C01.header_keyword_closed"),
    ("definition: a local function always gets a space behind its name", "src/formatters/functions.rs", "    let formatted_name = format_token_reference(ctx, local_function.name(), shape)\n        .update_trailing_trivia(FormatTriviaType::Append(function_definition_trivia));", "    let formatted_name = format_token_reference(ctx, local_function.name(), shape)\n        .update_trailing_trivia(FormatTriviaType::Append(vec![Token::new(TokenType::spaces(1))]));", "bodies", "default", "C11.definition_space"),
    ("definition: a function declaration is rebuilt around an empty body", "src/formatters/functions.rs", "    FunctionDeclaration::new(formatted_function_name)\n        .with_function_token(function_token)\n        .with_body(function_body)", "    FunctionDeclaration::new(formatted_function_name)\n        .with_function_token(function_token)", "bodies", "default", "C02.function_declaration_same"),
    ("call chain: a method call behind a call no longer counts as obscuring", "src/formatters/functions.rs", "            Some(Suffix::Index(_)) | Some(Suffix::Call(Call::MethodCall(_)))\n        ) {\n            FunctionCallNextNode::ObscureWithoutParens", "            Some(Suffix::Index(_))\n        ) {\n            FunctionCallNextNode::ObscureWithoutParens", "args", "default", "C11.call_chain_loop"),
    ("call chain: the obscure flag is taken from the suffix itself instead of the next one", "src/formatters/functions.rs", "        let ambiguous_next_suffix = if matches!(\n            suffixes.peek(),\n            Some(Suffix::Index(_)) | Some(Suffix::Call(Call::MethodCall(_)))\n        ) {", "        let ambiguous_next_suffix = if matches!(\n            Some(suffix),\n            Some(Suffix::Index(_)) | Some(Suffix::Call(Call::MethodCall(_)))\n        ) {", "args", "default", "C11.call_chain_loop"),
    ("harmless: a call chain hangs at every call (layout only)", "src/formatters/functions.rs", "        let will_hang = must_hang\n            || (should_hang", "        let will_hang = must_hang\n            || (true", "args", "default", "ok"),
    ("table: the ignore state is no longer updated from field to field", "src/formatters/table.rs", "        ctx = ctx.check_toggle_formatting(field);\n", "", "table", "default", "C08.table_loop"),
    ("table: a multiline table formats every field under the table's own ignore state", "src/formatters/table.rs", "        let (formatted_field, mut trailing_trivia) = formatter(&ctx, field, table_type, shape);", "        let (formatted_field, mut trailing_trivia) = formatter(&Context { formatting_disabled: false, ..ctx }, field, table_type, shape);", "table", "default", "undecided"),
    ("table: a one-line table drops its last field", "src/formatters/table.rs", "        fields.push(Pair::new(formatted_field, formatted_punctuation))\n    }\n\n    (braces, fields)\n}\n\n/// Expands a table", "        if formatted_punctuation.is_some() {\n            fields.push(Pair::new(formatted_field, formatted_punctuation))\n        }\n    }\n\n    (braces, fields)\n}\n\n/// Expands a table", "table", "default", "C08.table_loop"),
    ("table: a table without fields that should expand is laid out as empty, one with fields never", "src/formatters/table.rs", "        None => match should_expand(ctx, table_constructor) {\n            true => TableType::MultiLine,\n            false => TableType::Empty,\n        },", "        None => TableType::Empty,", "table", "default", "ok"),
    ("assignment: values that fit their line are dropped from a multi-line list", "src/formatters/assignment.rs", "                    // Add the pair as it is\n                    output_expr.push(formatted);", "                    // Add the pair as it is", "assign", "default", "C02.assignment_rehang_loop"),
    ("assignment: the hanging candidate is built from the first value only but used for the whole list", "src/formatters/assignment.rs", "    if expressions.len() > 1 {\n", "    if expressions.len() > 2 {\n", "assign", "default", "attempt_assignment_tactics"),
    ("return: the second value of a one-per-line list is dropped", "src/formatters/block.rs", "                    output_returns.push(formatted);", "                    if idx != 1 { output_returns.push(formatted); }", "assign", "default", "C02.return_rehang_loop"),
    ("return: every value is hung again from the first one", "src/formatters/block.rs", "let expression = hang_expression(ctx, original, shape, Some(1));", "let expression = hang_expression(ctx, returns.iter().next().unwrap(), shape, Some(1));", "assign", "default", "format_return"),
    ("harmless: the comments behind `return` are looked for on every value (only the first can have them moved there)", "src/formatters/block.rs", "if comment_between_token_and_returns && idx == 0 {", "if comment_between_token_and_returns {", "assign", "default", "ok"),
    ("harmless: the one-line candidate is preferred whenever it fits", "src/formatters/assignment.rs", "            if expression.has_inline_comments()\n                || hanging_shape.used_width() < formatting_shape.used_width()", "            if expression.has_inline_comments()\n                || formatting_shape.used_width() >= hanging_shape.used_width()", "assign", "default", "ok"),
    ("trivia: update_leading_trivia hands the trivia to the trailing side", "src/formatters/trivia.rs", "self.update_trivia(leading_trivia, FormatTriviaType::NoChange)", "self.update_trivia(FormatTriviaType::NoChange, leading_trivia)", "trivia", "default", "C03.update_leading_trivia_contract"),
    ("trivia: a token loses its trailing trivia when only the leading ones are asked for", "src/formatters/trivia.rs", "            FormatTriviaType::NoChange => self.trailing_trivia().map(|x| x.to_owned()).collect(),", "            FormatTriviaType::NoChange => vec![],", "trivia", "default", "C03.update_trivia_contract"),
    ("trivia: Replace appends", "src/formatters/trivia.rs", "            FormatTriviaType::Replace(trivia) => trivia,\n            FormatTriviaType::NoChange => self.leading_trivia()", "            FormatTriviaType::Replace(trivia) => { let mut current: Vec<Token> = self.leading_trivia().map(|x| x.to_owned()).collect(); current.extend(trivia); current }\n            FormatTriviaType::NoChange => self.leading_trivia()", "trivia", "default", "C03.update_trivia_contract"),
    ("trivia: a list drops its separators behind the first item", "src/formatters/trivia.rs", "                pair.punctuation().map(|x| x.to_owned()),\n            ))", "                None,\n            ))", "trivia", "default", "C03.list_update_loop"),
    ("trivia: the leading trivia of a binary expression go to the right operand", "src/formatters/trivia.rs", "            lhs: Box::new(lhs.update_leading_trivia(leading)),\n            binop: binop.to_owned(),\n            rhs: rhs.to_owned(),", "            lhs: lhs.to_owned(),\n            binop: binop.to_owned(),\n            rhs: Box::new(rhs.update_leading_trivia(leading)),", "trivia", "default", "C03.update_leading_trivia_contract"),
    ("trivia: the trailing trivia of an assignment go to its variables", "src/formatters/trivia.rs", "        .with_variables(this.variables().update_leading_trivia(leading))\n        .with_expressions(this.expressions().update_trailing_trivia(trailing))", "        .with_variables(this.variables().update_leading_trivia(trailing))\n        .with_expressions(this.expressions().update_trailing_trivia(leading))", "trivia", "default", "C03.update_trivia_contract"),
    ("trivia: `//` listed under lua53 only (D42): a build with the luau feature alone reaches the panic", "src/formatters/trivia.rs", "        #[cfg(any(feature = \"luau\", feature = \"lua53\"))]\n        DoubleSlash,", "        #[cfg(feature = \"lua53\")]\n        DoubleSlash,", "trivia", "luau", "update_trivia"),
    ("harmless: `//` listed under lua53 only is no problem for the two feature sets that have both or neither", "src/formatters/trivia.rs", "        #[cfg(any(feature = \"luau\", feature = \"lua53\"))]\n        DoubleSlash,", "        #[cfg(feature = \"lua53\")]\n        DoubleSlash,", "trivia", "all", "ok"),
    ("harmless: ContainedSpan binds its tokens one by one", "src/formatters/trivia.rs", "    let (start_token, end_token) = this.tokens();\n    ContainedSpan::new(", "    let tokens = this.tokens();\n    let start_token = tokens.0;\n    let end_token = tokens.1;\n    ContainedSpan::new(", "trivia", "default", "ok"),
    ("last statement: a return loses its values", "src/formatters/block.rs", "LastStmt::Return(return_node) => LastStmt::Return(format_return(ctx, return_node, shape)),", "LastStmt::Return(_return_node) => LastStmt::Return(Return::new()),", "assign", "default", "C02.last_stmt_same"),
    ("compound assignment: `-=` printed as `+=`", "src/formatters/luau.rs", "        MinusEqual = \" -= \",", "        MinusEqual = \" += \",", "assign", "all", "C02.compound_op_prints_the_operator"),
    ("compound assignment: value and variable swapped is a type error, the value formatted twice is not", "src/formatters/luau.rs", "    CompoundAssignment::new(lhs, compound_operator, rhs)", "    CompoundAssignment::new(lhs, compound_operator, format_expression(ctx, &Expression::Var(compound_assignment.lhs().to_owned()), shape))", "assign", "all", "C02.compound_assignment_same"),
    ("goto: the label is formatted from the goto token", "src/formatters/lua52.rs", "    let label_name = format_token_reference(ctx, goto.label_name(), shape);\n\n    Goto::new(label_name)", "    let label_name = format_token_reference(ctx, goto.goto_token(), shape);\n\n    Goto::new(label_name)", "assign", "all", "C02.goto_label_same"),
    ("parameters: the last parameter of a one-line list is dropped", "src/formatters/functions.rs", "        formatted_parameters.push(Pair::new(parameter, punctuation));", "        if punctuation.is_some() { formatted_parameters.push(Pair::new(parameter, punctuation)); }", "collapse", "default", "C02.function_parameters_loop"),
    ("parameters: `...` becomes a name", "src/formatters/functions.rs", "        Parameter::Ellipsis(token) => Parameter::Ellipsis(fmt_symbol!(ctx, token, \"...\", shape)),", "        Parameter::Ellipsis(token) => Parameter::Name(fmt_symbol!(ctx, token, \"...\", shape)),", "collapse", "default", "C02.parameter_same"),
    ("luau: mark_contains_union forgets its mark", "src/formatters/luau.rs", "            contains_union: true,\n            ..self", "            contains_union: false,\n            ..self", "luau", "all", "C02.luau_context_marks"),
    ("harmless: mark_contains_union also sets the table indexer mark (more parentheses are kept, none is lost)", "src/formatters/luau.rs", "            contains_union: true,\n            ..self", "            contains_union: true,\n            within_table_indexer: true,\n            ..self", "luau", "all", "ok"),
    ("harmless: every type starts out in a context that has the variadic mark", "src/formatters/luau.rs", "            within_optional: false,\n            within_variadic: false,", "            within_optional: false,\n            within_variadic: true,", "luau", "all", "ok"),
    ("join: only a single line comment is moved onto its own line behind a single line comment", "src/formatters/trivia_util.rs", "        if behind_singleline_comment && trivia_is_comment(&token) {", "        if behind_singleline_comment && trivia_is_singleline_comment(&token) {", "tok", "default", "C03.join_loop"),
    ("join: the second list is dropped when the first ends in a comment", "src/formatters/trivia_util.rs", "    let mut trivia = first;\n    trivia.extend(second);", "    let mut trivia = first;\n    if !trivia.last().map_or(false, trivia_is_comment) {\n        trivia.extend(second);\n    }", "tok", "default", "undecided"),
    ("harmless: join_trailing_trivia does not reserve capacity", "src/formatters/trivia_util.rs", "    let mut joined: Vec<Token> = Vec::with_capacity(trivia.len());", "    let mut joined: Vec<Token> = Vec::new();", "tok", "default", "ok"),
    ("collapse: a comment behind the Luau return type no longer keeps the body on its own lines (D44)", "src/formatters/functions.rs", "    let require_multiline_function = require_multiline_function\n        || function_body", "    let require_multiline_function = require_multiline_function\n        || false && function_body", "collapse", "all", "C01.collapsed_function_return_type_closed"),
    # a predicate moved into a new helper next to the function: the helper is inlined (gen.InlineHelper) and verified as part of the caller
    ("helper: the sugar decision moved into a helper that forgets the Input exception", FU, [FA_DOC, FA_STR, FA_TAB], [HELPER_BAD + FA_DOC, FA_STR_H, FA_TAB_H], "args", "default", "C11.input_keeps_form"),
    ("harmless: the sugar decision moved into a helper (with a binding and an early return)", FU, [FA_DOC, FA_STR, FA_TAB], [HELPER_OK + FA_DOC, FA_STR_H, FA_TAB_H], "args", "default", "ok"),
    # harmless changes: must still verify
    ("harmless: a comment added inside format_expression_internal", EX, "            let lhs = format_expression_internal(ctx, lhs, lhs_context, shape);\n", "            // the left operand first\n            let lhs = format_expression_internal(ctx, lhs, lhs_context, shape);\n", "expr", "default", "ok"),
    ("harmless: a hole anchor re-wrapped by rustfmt", EX, "            let shape = shape + strip_leading_trivia(&unop).to_string().len();", "            let shape =\n                shape + strip_leading_trivia(&unop).to_string().len();", "expr", "default", "ok"),
    ("harmless: luau table indexer no longer keeps union parentheses", LU, "                || context.within_variadic\n                || context.within_table_indexer\n                || context.contains_intersect =>", "                || context.within_variadic\n                || context.contains_intersect =>", "luau", "all", "ok"),
    ("harmless: doc comment of format_symbol reworded", GE, "// Preserve comments in leading/trailing trivia", "// Keep the comments of the leading and trailing trivia", "tok", "default", "ok"),
]

def sh(*a, **k):
    return subprocess.run(*a, capture_output=True, text=True, **k)

def main():
    only = sys.argv[1] if len(sys.argv) > 1 else ""
    head = sh(["git", "-C", "/repo", "rev-parse", "HEAD"]).stdout.strip()
    sh(["git", "-C", "/repo", "worktree", "remove", "--force", WT])
    r = sh(["git", "-C", "/repo", "worktree", "add", "--detach", WT, head])
    if r.returncode:
        print("cannot create scratch worktree:", r.stderr); return 2
    bad = 0
    try:
        for name, f, old, new, unit, fs, expect in CASES:
            if only and only not in name: continue
            p = os.path.join(WT, f); src = open(p).read()
            pairs = list(zip(old, new)) if isinstance(old, list) else [(old, new)]
            if any(src.count(o) < 1 for o, _ in pairs):
                print(f"SKIP   {name}: anchor not found in {f}"); bad += 1; continue
            txt = src
            for o, n in pairs: txt = txt.replace(o, n)
            open(p, "w").write(txt)
            r = sh(f"VX_REPO={WT} python3 {ROOT}/vx/dev.py {unit} {fs} 2>&1 | head -12", shell=True, cwd=ROOT)
            open(p, "w").write(src)
            out = r.stdout
            status = re.search(r"\] (ok|failed|undecided)", out)
            status = status.group(1) if status else ("undecided" if "EXTRACT ERROR" in out else "?")
            if expect == "ok": good = status == "ok"
            elif expect == "undecided": good = status == "undecided"
            else: good = status == "failed" and expect in out
            print(("PASS   " if good else "FAIL   ") + f"{name}: expected {expect}, got {status}" + ("" if good else "\n" + out))
            bad += 0 if good else 1
    finally:
        sh(["git", "-C", "/repo", "worktree", "remove", "--force", WT])
    print("self-test:", "all cases as expected" if not bad else f"{bad} case(s) not as expected")
    return 1 if bad else 0

if __name__ == "__main__":
    sys.exit(main())
