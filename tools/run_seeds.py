#!/usr/bin/env python3
"""Apply every kept seeded change to /repo in turn, run the check of the property it breaks, undo it; write seeded/RESULTS.md"""
import json, glob, os, subprocess, re, sys
rows = []
only = sys.argv[1:]
for meta in sorted([m for m in glob.glob("/verif/seeded/*/meta.json") if "/retired/" not in m]):
    m = json.load(open(meta)); d = os.path.dirname(meta)
    if only and m["id"] not in only: continue
    if subprocess.run(["git", "-C", "/repo", "status", "--porcelain", "--untracked-files=no"], capture_output=True, text=True).stdout.strip():
        print("/repo not clean"); sys.exit(9)
    a = subprocess.run(["git", "-C", "/repo", "apply", os.path.join(d, "patch.diff")], capture_output=True, text=True)
    if a.returncode != 0:
        rows.append((m["id"], m["property"], "patch does not apply to the current /repo HEAD", "-")); continue
    try:
        p = subprocess.run(["./check", m["property"]], cwd="/verif", capture_output=True, text=True, timeout=1800)
    finally:
        subprocess.run(["git", "-C", "/repo", "checkout", "--", "."])
    out = p.stdout
    vio = re.findall(r"VIOLATION property=\S+ replay=(\S+)( no-failing-input-found)?", out)
    und = "UNDECIDED" in out
    labels = []
    for path, nf in vio:
        try:
            rec = json.load(open(path)); labels.append((rec.get("obligation") or "")[:80] + (" (no failing input)" if nf else ""))
        except Exception:
            labels.append(os.path.basename(path))
    if p.returncode == 1 and vio:
        if und: mode = "verifier undecided on the changed tree (exit-2 class) -> witness sweep on the real code found a failing input"
        elif all(("bounded" in os.path.basename(x[0])) for x in vio): mode = "bounded stand-in (scenario / witness on the real code)"
        else: mode = "failed contract obligation" + ("" if any(not x[1] for x in vio) else " (no failing input found)")
        res = "DETECTED exit 1"
    else:
        mode = "-"; res = f"MISSED exit {p.returncode}"
    rows.append((m["id"], m["property"], res + ": " + mode, "; ".join(dict.fromkeys(labels))[:260]))
    print(rows[-1])
# results are kept per seed so that a partial run (seed ids on the command line) updates its rows only
store = "/verif/seeded/results.json"
allrows = json.load(open(store)) if os.path.exists(store) else {}
for r in rows: allrows[r[0]] = list(r)
json.dump(allrows, open(store, "w"), indent=1, sort_keys=True)
rows = [tuple(allrows[k]) for k in sorted(allrows)]
with open("/verif/seeded/RESULTS.md", "w") as f:
    f.write("# Seeded changes: what `./check <property>` says with each one applied to /repo\n\n(written by tools/run_seeds.py; /repo HEAD = %s)\n\n| seed | property | result | obligation / witness reported |\n|---|---|---|---|\n" %
            subprocess.run(["git", "-C", "/repo", "rev-parse", "--short", "HEAD"], capture_output=True, text=True).stdout.strip())
    for r in rows: f.write("| %s | %s | %s | %s |\n" % tuple(str(x).replace("|", "/").replace("\n", " ") for x in r))
