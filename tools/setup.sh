#!/bin/bash
# MANIFEST.setup_cmd: offline build of what the checks need besides /repo itself
set -e
cd "$(dirname "$0")/.."
tools/build_vdeps.sh
# pre-build the replay crate (only used when an obligation fails / thorough tier); failure here is not fatal
( cd replay && CARGO_NET_OFFLINE=true CARGO_TARGET_DIR="$PWD/../.build/replay-target" cargo build --offline >/dev/null 2>&1 ) || echo "replay crate not pre-built (will be built on demand)"
( cd /repo && CARGO_NET_OFFLINE=true CARGO_TARGET_DIR="$OLDPWD/.build/cli-target" cargo build --offline --features luau,lua52,lua53,lua54,luajit >/dev/null 2>&1 ) || echo "stylua binary not pre-built (will be built on demand)"
echo setup-ok
