#![allow(unused)]
use vstd::prelude::*;
use full_moon::tokenizer::{TokenReference, Token};
use full_moon::ast::{Stmt, LastStmt, Block};
use std::iter::Peekable;

#[macro_export]
macro_rules! fmt_symbol {
    ($ctx:expr, $token:expr, $x:expr, $shape:expr) => {
        $crate::formatters::general::format_symbol(
            $ctx,
            $token,
            &TokenReference::symbol($x).unwrap(),
            $shape,
        )
    };
}

verus! {

#[verifier::external_type_specification] #[verifier::external_body] pub struct ExTokenReference(TokenReference);
#[verifier::external_type_specification] #[verifier::external_body] pub struct ExToken(Token);
#[verifier::external_type_specification] #[verifier::external_body] pub struct ExStmt(Stmt);
#[verifier::external_type_specification] #[verifier::external_body] pub struct ExLastStmt(LastStmt);
#[verifier::external_type_specification] #[verifier::external_body] pub struct ExBlock(Block);
#[verifier::external_type_specification] #[verifier::external_body] pub struct ExTokErr(full_moon::tokenizer::TokenizerErrorType);
#[verifier::reject_recursive_types(I)]
#[verifier::external_type_specification] #[verifier::external_body]
pub struct ExPeekable<I>(Peekable<I>) where I: Iterator;

pub type StmtSemi = (Stmt, Option<TokenReference>);

// ---------- prelude: views & assumed specs (class A/B)
pub uninterp spec fn block_stmts(b: &Block) -> Seq<StmtSemi>;
pub uninterp spec fn block_last(b: &Block) -> Option<(LastStmt, Option<TokenReference>)>;
pub uninterp spec fn pk_rest<I: Iterator>(p: &Peekable<I>) -> Seq<I::Item>;
pub uninterp spec fn it_rest<I: Iterator>(p: &I) -> Seq<I::Item>;

pub assume_specification [Block::stmts_with_semicolon] (b: &Block) -> (r: impl Iterator<Item = &(Stmt, Option<TokenReference>)>)
    ensures it_rest(&r).len() == block_stmts(b).len(),
            forall|i: int| 0 <= i < it_rest(&r).len() ==> *(#[trigger] it_rest(&r)[i]) == block_stmts(b)[i];
pub assume_specification [Block::last_stmt_with_semicolon] (b: &Block) -> (r: Option<&(LastStmt, Option<TokenReference>)>)
    ensures r is Some == block_last(b) is Some, r is Some ==> *r.unwrap() == block_last(b).unwrap();
pub assume_specification [Block::new] () -> (r: Block) ensures block_stmts(&r).len() == 0, block_last(&r) is None;
pub assume_specification [Block::with_stmts] (b: Block, stmts: Vec<(Stmt, Option<TokenReference>)>) -> (r: Block)
    ensures block_stmts(&r) == stmts@, block_last(&r) == block_last(&b);
pub assume_specification [Block::with_last_stmt] (b: Block, l: Option<(LastStmt, Option<TokenReference>)>) -> (r: Block)
    ensures block_stmts(&r) == block_stmts(&b), block_last(&r) == l;
pub assume_specification [TokenReference::symbol] (s: &str) -> (r: Result<TokenReference, full_moon::tokenizer::TokenizerErrorType>)
    ensures r is Ok;
pub assume_specification<T> [<T as std::borrow::ToOwned>::to_owned] (x: &T) -> (r: T) where T: std::clone::Clone, ensures r == *x;
#[verifier::allow(undeclared_external_trait)]
pub assume_specification<T> [std::mem::drop] (x: T) where T: std::marker::Destruct;

pub mod verif {
    use super::*;
    #[verifier::external_body]
    pub fn peekable<I: Iterator>(it: I) -> (r: Peekable<I>) ensures pk_rest(&r) == it_rest(&it) { it.peekable() }
}
pub assume_specification<I> [Peekable::<I>::peek] (p: &mut Peekable<I>) -> (r: Option<&<I as Iterator>::Item>)
    where I: Iterator,
    ensures pk_rest(final(p)) == pk_rest(old(p)),
            pk_rest(old(p)).len() == 0 ==> r is None,
            pk_rest(old(p)).len() > 0 ==> r is Some && *r.unwrap() == pk_rest(old(p))[0];
pub assume_specification<I> [<Peekable::<I> as Iterator>::next] (p: &mut Peekable<I>) -> (r: Option<<I as Iterator>::Item>)
    where I: Iterator,
    ensures pk_rest(old(p)).len() == 0 ==> r is None && pk_rest(final(p)) == pk_rest(old(p)),
            pk_rest(old(p)).len() > 0 ==> r is Some && r.unwrap() == pk_rest(old(p))[0] && pk_rest(final(p)) == pk_rest(old(p)).skip(1);

// ---------- in-repo types
#[derive(Clone, Copy)] pub struct Shape { pub offset: usize }
impl Shape { #[verifier::external_body] pub fn reset(&self) -> Shape { unimplemented!() } }
#[derive(Debug, PartialEq, Eq)] pub enum FormatNode { Skip, NotInRange, Normal }
#[derive(Clone, Copy)] pub struct Context { pub formatting_disabled: bool }
pub enum FormatTriviaType { Append(Vec<Token>), Replace(Vec<Token>), NoChange }

pub uninterp spec fn toggle(c: Context, s: Stmt) -> Context;
pub uninterp spec fn decision(c: Context, s: Stmt) -> FormatNode;
pub uninterp spec fn decision_last(c: Context, s: LastStmt) -> FormatNode;
pub uninterp spec fn toggle_last(c: Context, s: LastStmt) -> Context;

pub trait VNode { spec fn as_stmt(&self) -> Option<Stmt>; spec fn as_last(&self) -> Option<LastStmt>; }
impl VNode for Stmt { open spec fn as_stmt(&self) -> Option<Stmt> { Some(*self) } open spec fn as_last(&self) -> Option<LastStmt> { None } }
impl VNode for LastStmt { open spec fn as_stmt(&self) -> Option<Stmt> { None } open spec fn as_last(&self) -> Option<LastStmt> { Some(*self) } }

impl Context {
    #[verifier::external_body]
    pub fn check_toggle_formatting(&self, node: &impl VNode) -> (r: Context)
        ensures node.as_stmt() is Some ==> r == toggle(*self, node.as_stmt().unwrap()),
                node.as_last() is Some ==> r == toggle_last(*self, node.as_last().unwrap()),
    { unimplemented!() }
    #[verifier::external_body]
    pub fn should_format_node(&self, node: &impl VNode) -> (r: FormatNode)
        ensures node.as_stmt() is Some ==> r == decision(*self, node.as_stmt().unwrap()),
                node.as_last() is Some ==> r == decision_last(*self, node.as_last().unwrap()),
    { unimplemented!() }
}

pub trait UpdateTrailingTrivia: Sized { fn update_trailing_trivia(&self, t: FormatTriviaType) -> Self; }
impl UpdateTrailingTrivia for Stmt { #[verifier::external_body] fn update_trailing_trivia(&self, t: FormatTriviaType) -> Self { unimplemented!() } }
impl UpdateTrailingTrivia for LastStmt { #[verifier::external_body] fn update_trailing_trivia(&self, t: FormatTriviaType) -> Self { unimplemented!() } }
impl UpdateTrailingTrivia for TokenReference { #[verifier::external_body] fn update_trailing_trivia(&self, t: FormatTriviaType) -> Self { unimplemented!() } }

pub mod formatters { pub mod general {
    use super::super::*;
    #[verifier::external_body]
    pub fn format_symbol(ctx: &Context, current_symbol: &TokenReference, wanted_symbol: &TokenReference, shape: Shape) -> TokenReference { unimplemented!() }
} }
pub mod trivia_util {
    use super::*;
    #[verifier::external_body]
    pub fn get_stmt_trailing_trivia(stmt: Stmt) -> (Stmt, Vec<Token>) { unimplemented!() }
}

#[verifier::external_body]
fn format_stmt(ctx: &Context, stmt: &Stmt, shape: Shape) -> (r: Stmt)
    ensures decision(*ctx, *stmt) is Skip ==> r == *stmt
{ unimplemented!() }
#[verifier::external_body]
fn format_last_stmt(ctx: &Context, stmt: &LastStmt, shape: Shape) -> (r: LastStmt)
    ensures decision_last(*ctx, *stmt) is Skip ==> r == *stmt
{ unimplemented!() }
#[verifier::external_body] fn stmt_remove_leading_newlines(stmt: Stmt) -> Stmt { unimplemented!() }
#[verifier::external_body] fn last_stmt_remove_leading_newlines(stmt: LastStmt) -> LastStmt { unimplemented!() }
#[verifier::external_body]
fn check_stmt_requires_semicolon(stmt: &Stmt, next_stmt: Option<&&(Stmt, Option<TokenReference>)>) -> bool { unimplemented!() }
#[verifier::external_body] fn hole_vec_token() -> Vec<Token> { unimplemented!() }

// ---------- spec of the context at statement i
pub open spec fn ctx_at(c: Context, s: Seq<StmtSemi>, i: int) -> Context
    decreases i
{
    if i <= 0 { toggle(c, s[0].0) } else { toggle(ctx_at(c, s, i - 1), s[i].0) }
}

// ---------- REAL TEXT of block.rs::format_block (contract + loop contract spliced)
pub fn format_block(ctx: &Context, block: &Block, shape: Shape) -> (r: Block)
    ensures
        block_stmts(&r).len() == block_stmts(block).len(),
        forall|i: int| 0 <= i < block_stmts(block).len()
            && decision(ctx_at(*ctx, block_stmts(block), i), block_stmts(block)[i].0) is Skip
            ==> #[trigger] block_stmts(&r)[i] == block_stmts(block)[i],
{
    let mut ctx = *ctx;
    let mut formatted_statements: Vec<(Stmt, Option<TokenReference>)> = Vec::new();
    let mut found_first_stmt = false;
    let mut stmt_iterator = verif::peekable(block.stmts_with_semicolon());
    let ghost ctx0 = ctx;
    let ghost mut k: int = 0;

    while let Some((stmt, semi)) = stmt_iterator.next()
        invariant
            0 <= k <= block_stmts(block).len(),
            pk_rest(&stmt_iterator).len() == block_stmts(block).len() - k,
            forall|j: int| 0 <= j < pk_rest(&stmt_iterator).len() ==> *(#[trigger] pk_rest(&stmt_iterator)[j]) == block_stmts(block)[k + j],
            formatted_statements@.len() == k,
            k > 0 ==> ctx == ctx_at(ctx0, block_stmts(block), k - 1),
            k == 0 ==> ctx == ctx0,
            forall|i: int| 0 <= i < k
                && decision(ctx_at(ctx0, block_stmts(block), i), block_stmts(block)[i].0) is Skip
                ==> #[trigger] formatted_statements@[i] == block_stmts(block)[i],
        ensures k == block_stmts(block).len(),
        decreases pk_rest(&stmt_iterator).len(),
    {
        ctx = ctx.check_toggle_formatting(stmt);

        let shape = shape.reset();
        let mut stmt = format_stmt(&ctx, stmt, shape);

        // If this is the first stmt, then remove any leading newlines
        if !found_first_stmt {
            if let FormatNode::Normal = ctx.should_format_node(&stmt) {
                stmt = stmt_remove_leading_newlines(stmt);
            }
            found_first_stmt = true;
        }

        // If we have a semicolon, we need to push all the trailing trivia from the statement
        // and move it to the end of the semicolon
        let semicolon = match check_stmt_requires_semicolon(&stmt, stmt_iterator.peek()) {
            true => {
                let (updated_stmt, trivia) = trivia_util::get_stmt_trailing_trivia(stmt);
                stmt = updated_stmt;
                Some(
                    match semi {
                        Some(semi) => crate::fmt_symbol!(&ctx, semi, ";", shape),
                        None => TokenReference::symbol(";").expect("could not make semicolon"),
                    }
                    .update_trailing_trivia(FormatTriviaType::Append(trivia)),
                )
            }
            false => match semi {
                Some(semi) => {
                    let trivia = hole_vec_token();

                    stmt = stmt.update_trailing_trivia(FormatTriviaType::Replace(trivia));

                    None
                }
                None => None,
            },
        };

        formatted_statements.push((stmt, semicolon));
        proof { k = k + 1; }
    }

    // Drop the stmt_iterator as we do not need it anymore and we still need to use `block`
    drop(stmt_iterator);

    let formatted_last_stmt = match block.last_stmt_with_semicolon() {
        Some((last_stmt, semi)) => {
            ctx = ctx.check_toggle_formatting(last_stmt);

            let shape = shape.reset();
            let mut last_stmt = format_last_stmt(&ctx, last_stmt, shape);
            // If this is the first stmt, then remove any leading newlines
            if !found_first_stmt && matches!(ctx.should_format_node(&last_stmt), FormatNode::Normal)
            {
                last_stmt = last_stmt_remove_leading_newlines(last_stmt);
            }

            let semicolon = match semi {
                Some(semi) => {
                    let trivia = hole_vec_token();

                    last_stmt = last_stmt.update_trailing_trivia(FormatTriviaType::Replace(trivia));

                    None
                }
                None => None,
            };
            Some((last_stmt, semicolon))
        }
        None => None,
    };

    Block::new()
        .with_stmts(formatted_statements)
        .with_last_stmt(formatted_last_stmt)
}

}
fn main() {}
