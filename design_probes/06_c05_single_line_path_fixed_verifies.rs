use vstd::prelude::*;
use full_moon::ast::{Expression, UnOp, BinOp, FunctionBody, FunctionCall, TableConstructor, Var};
use full_moon::ast::span::ContainedSpan;
use full_moon::ast::luau::{IfExpression, InterpolatedString, TypeAssertion};
use full_moon::tokenizer::{TokenReference, Token, TokenType, Symbol, StringLiteralQuoteType, InterpolatedStringKind};
use full_moon::ShortString;

verus! {

#[verifier::external_type_specification] #[verifier::external_body] pub struct ExTokenReference(TokenReference);
#[verifier::external_type_specification] #[verifier::external_body] pub struct ExContainedSpan(ContainedSpan);
#[verifier::external_type_specification] #[verifier::external_body] pub struct ExFunctionBody(FunctionBody);
#[verifier::external_type_specification] #[verifier::external_body] pub struct ExFunctionCall(FunctionCall);
#[verifier::external_type_specification] #[verifier::external_body] pub struct ExTableConstructor(TableConstructor);
#[verifier::external_type_specification] #[verifier::external_body] pub struct ExVar(Var);
#[verifier::external_type_specification] #[verifier::external_body] pub struct ExIfExpression(IfExpression);
#[verifier::external_type_specification] #[verifier::external_body] pub struct ExInterpolatedString(InterpolatedString);
#[verifier::external_type_specification] #[verifier::external_body] pub struct ExTypeAssertion(TypeAssertion);
#[verifier::external_type_specification] #[verifier::external_body] pub struct ExToken(Token);
#[verifier::external_type_specification] pub struct ExUnOp(UnOp);
#[verifier::external_type_specification] pub struct ExBinOp(BinOp);
#[verifier::external_type_specification] pub struct ExExpression(Expression);

// ---- in-repo types extracted
#[derive(Clone, Copy)]
pub struct Shape { pub offset: usize }
#[derive(Clone, Copy)]
pub struct Context { pub x: bool }

impl vstd::std_specs::ops::AddSpecImpl<usize> for Shape {
    open spec fn obeys_add_spec() -> bool { false }
    open spec fn add_req(self, rhs: usize) -> bool { true }
    open spec fn add_spec(self, rhs: usize) -> Shape { self }
}
impl core::ops::Add<usize> for Shape {
    type Output = Shape;
    #[verifier::external_body]
    fn add(self, rhs: usize) -> Shape { self }
}

pub enum FormatTriviaType { Append(Vec<Token>), Replace(Vec<Token>), NoChange }

// skeleton: ghost view erasing trivia
pub uninterp spec fn leaf_id(e: Expression) -> int;

pub enum Skel { Leaf(int), Paren(Box<Skel>), Un(int, Box<Skel>), Bin(Box<Skel>, int, Box<Skel>), Assert(Box<Skel>, int) }

pub open spec fn unop_id(u: UnOp) -> int { match u { UnOp::Minus(_) => 1, UnOp::Not(_) => 2, UnOp::Hash(_) => 3, UnOp::Tilde(_) => 4, _ => 0 } }
pub open spec fn binop_id(b: BinOp) -> int { match b { BinOp::Caret(_) => 12, BinOp::Plus(_) => 9, BinOp::Minus(_) => 9, BinOp::Star(_) => 10, BinOp::TwoDots(_) => 8, BinOp::And(_) => 2, BinOp::Or(_) => 1, _ => 3 } }
// precedence == id in this prototype; right assoc: 12 (^), 8 (..)
pub open spec fn prec(op: int) -> int { op }
pub open spec fn right_assoc(op: int) -> bool { op == 12 || op == 8 }
pub enum Pos { Free, PrefixPos, AssertOperand, UnaryOperand, BinLhs(int), BinRhs(int) }
pub open spec fn fits(s: Skel, p: Pos) -> bool {
    match p {
        Pos::Free => true,
        Pos::PrefixPos => s is Paren,
        Pos::AssertOperand => s is Paren || s is Leaf,
        Pos::UnaryOperand => match s { Skel::Bin(_, o, _) => o == 12, _ => true },
        Pos::BinLhs(op) => match s {
            Skel::Un(_, _) => op != 12,
            Skel::Bin(_, o, _) => prec(o) > prec(op) || (prec(o) == prec(op) && !right_assoc(op)),
            _ => true,
        },
        Pos::BinRhs(op) => match s {
            Skel::Bin(_, o, _) => prec(o) > prec(op) || (prec(o) == prec(op) && right_assoc(op)),
            _ => true,
        },
    }
}
pub open spec fn wf(s: Skel) -> bool decreases s {
    match s {
        Skel::Paren(i) => wf(*i),
        Skel::Un(_, x) => wf(*x) && fits(*x, Pos::UnaryOperand),
        Skel::Bin(l, o, r) => wf(*l) && wf(*r) && fits(*l, Pos::BinLhs(o)) && fits(*r, Pos::BinRhs(o)),
        _ => true,
    }
}
pub open spec fn gamma(c: ExpressionContext, p: Pos) -> bool {
    match c {
        ExpressionContext::Standard => p is Free,
        ExpressionContext::Prefix => p is PrefixPos,
        ExpressionContext::TypeAssertion => p is AssertOperand,
        ExpressionContext::BinaryLHS => p is BinLhs && p->BinLhs_0 != 12,
        ExpressionContext::BinaryLHSExponent => p == Pos::BinLhs(12),
        ExpressionContext::UnaryOrBinary => p is UnaryOperand || p is BinRhs,
    }
}

pub open spec fn skel(e: Expression) -> Skel
    decreases e
{
    match e {
        Expression::Parentheses { contained, expression } => Skel::Paren(Box::new(skel(*expression))),
        Expression::UnaryOperator { unop, expression } => Skel::Un(unop_id(unop), Box::new(skel(*expression))),
        Expression::BinaryOperator { lhs, binop, rhs } => Skel::Bin(Box::new(skel(*lhs)), binop_id(binop), Box::new(skel(*rhs))),
        _ => Skel::Leaf(leaf_id(e)),
    }
}

// erase all parens
pub open spec fn erase(s: Skel) -> Skel
    decreases s
{
    match s {
        Skel::Paren(inner) => erase(*inner),
        Skel::Un(o, inner) => Skel::Un(o, Box::new(erase(*inner))),
        Skel::Bin(l, o, r) => Skel::Bin(Box::new(erase(*l)), o, Box::new(erase(*r))),
        other => other,
    }
}

pub trait UpdateLeadingTrivia: Sized {
    spec fn sk(&self) -> Skel;
    fn update_leading_trivia(&self, t: FormatTriviaType) -> (r: Self) ensures r.sk() == self.sk();
}
impl UpdateLeadingTrivia for Expression {
    open spec fn sk(&self) -> Skel { skel(*self) }
    #[verifier::external_body]
    fn update_leading_trivia(&self, t: FormatTriviaType) -> (r: Self) { unimplemented!() }
}

#[verifier::external_body]
fn format_unop(ctx: &Context, unop: &UnOp, shape: Shape) -> (r: UnOp)
    ensures unop_id(r) == unop_id(*unop)
{ unimplemented!() }

#[verifier::external_body]
fn format_contained_span(ctx: &Context, c: &ContainedSpan, shape: Shape) -> (r: ContainedSpan)
{ unimplemented!() }

#[verifier::external_body]
fn format_leaf(e: &Expression) -> (r: Expression) requires !(e is Parentheses) && !(e is UnaryOperator) && !(e is BinaryOperator) ensures skel(r) == skel(*e) { unimplemented!() }

#[verifier::external_body]
fn hole_vec_token() -> Vec<Token> { unimplemented!() }

#[derive(Clone, Copy)]
pub enum ExpressionContext { Standard, Prefix, TypeAssertion, BinaryLHS, BinaryLHSExponent, UnaryOrBinary }

#[verifier::external_body]
fn format_binop(ctx: &Context, binop: &BinOp, shape: Shape) -> (r: BinOp)
    ensures binop_id(r) == binop_id(*binop)
{ unimplemented!() }

fn check_excess_parentheses(internal_expression: &Expression, context: ExpressionContext) -> (b: bool)
    requires wf(skel(*internal_expression))
    ensures b ==> forall|p: Pos| gamma(context, p) ==> #[trigger] fits(skel(*internal_expression), p) || p is PrefixPos || p is AssertOperand,
    decreases internal_expression
{
    match internal_expression {
        Expression::Parentheses { .. } => true,
        Expression::UnaryOperator { expression, unop, .. } => {
            if let ExpressionContext::BinaryLHSExponent = context {
                return false;
            } else if let ExpressionContext::BinaryLHS = context {
                if let UnOp::Not(_) = unop {
                    return false;
                }
            }
            check_excess_parentheses(expression, context)
        }
        Expression::BinaryOperator { .. } => false,
        Expression::FunctionCall(_) => false,
        _ => true,
    }
}

fn format_expression(ctx: &Context, expression: &Expression, shape: Shape) -> (r: Expression)
    requires wf(skel(*expression))
    ensures erase(skel(r)) == erase(skel(*expression)), wf(skel(r)),
    decreases expression, 1int
{
    format_expression_internal(ctx, expression, ExpressionContext::Standard, shape)
}

fn format_expression_internal(ctx: &Context, expression: &Expression, context: ExpressionContext, shape: Shape) -> (r: Expression)
    requires wf(skel(*expression))
    ensures erase(skel(r)) == erase(skel(*expression)),
            wf(skel(r)),
            forall|p: Pos| gamma(context, p) && fits(skel(*expression), p) ==> #[trigger] fits(skel(r), p),
    decreases expression, 0int
{
    match expression {
        Expression::Parentheses { contained, expression } => {
            let keep_parentheses = matches!(context, ExpressionContext::Prefix | ExpressionContext::TypeAssertion);
            let use_internal_expression = check_excess_parentheses(expression, context);
            if use_internal_expression && !keep_parentheses {
                let leading_comments = hole_vec_token();
                format_expression_internal(ctx, expression, context, shape)
                    .update_leading_trivia(FormatTriviaType::Append(leading_comments))
            } else {
                Expression::Parentheses {
                    contained: format_contained_span(ctx, contained, shape),
                    expression: Box::new(format_expression(ctx, expression, shape + 1)),
                }
            }
        }
        Expression::UnaryOperator { unop, expression } => {
            let unop = format_unop(ctx, unop, shape);
            let mut expression = format_expression_internal(ctx, expression, ExpressionContext::UnaryOrBinary, shape);
            if let UnOp::Minus(_) = unop {
                let require_parentheses = match expression {
                    Expression::UnaryOperator { unop: UnOp::Minus(_), .. } => true,
                    Expression::Parentheses { ref expression, .. } => matches!(
                        &**expression,
                        Expression::UnaryOperator { unop: UnOp::Minus(_), .. }
                    ),
                    _ => false,
                };
            }
            Expression::UnaryOperator { unop, expression: Box::new(expression) }
        }
        Expression::BinaryOperator { lhs, binop, rhs } => {
            let context = if let BinOp::Caret(_) = binop {
                ExpressionContext::BinaryLHSExponent
            } else {
                ExpressionContext::BinaryLHS
            };
            let lhs = format_expression_internal(ctx, lhs, context, shape);
            let binop = format_binop(ctx, binop, shape);
            Expression::BinaryOperator {
                lhs: Box::new(lhs),
                binop,
                rhs: Box::new(format_expression_internal(
                    ctx,
                    rhs,
                    ExpressionContext::UnaryOrBinary,
                    shape,
                )),
            }
        }
        other => format_leaf(other),
    }
}

}
fn main() {}
