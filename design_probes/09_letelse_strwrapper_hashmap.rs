use vstd::prelude::*;
use std::collections::HashMap;
verus! {
pub enum Pre { Name(u8), Expr(u16) }
fn le(p: &Pre) -> Option<u8> {
    let Pre::Name(token) = p else {
        return None;
    };
    Some(*token)
}

pub uninterp spec fn has_char(s: Seq<char>, c: char) -> bool;
#[verifier::external_body] fn str_contains_char(s: &str, c: char) -> (r: bool) ensures r == has_char(s@, c) { s.contains(c) }


fn q(literal: &str) -> (r: bool) ensures r == (has_char(literal@, '\'') || has_char(literal@, '"')) {
    str_contains_char(literal, '\'') || str_contains_char(literal, '"')
}


#[derive(Clone, Copy)]
pub struct Config { pub w: usize }

fn cache(m: &mut HashMap<u64, Option<Config>>, k: u64) -> (r: Option<Config>)
{
    if let Some(c) = m.get(&k) {
        return *c;
    }
    m.insert(k, None);
    None
}
}
fn main() {}
