use vstd::prelude::*;
use anyhow::{Context, Result};
use std::path::Path;
use std::fs;

verus! {
pub struct P0 { pub x: u8 }
#[verifier::external_type_specification] #[verifier::external_body] pub struct ExAnyhowError(anyhow::Error);
#[verifier::external_type_specification] #[verifier::external_body] pub struct ExIoError(std::io::Error);

pub uninterp spec fn write_allowed(p: &P0, data: Seq<char>) -> bool;

#[verifier::external_body]
fn fs_write(path: &P0, contents: String) -> (r: Result<(), std::io::Error>)
    requires write_allowed(path, contents@)
{ unimplemented!() }

#[verifier::external_body]
fn fs_read_to_string(path: &P0) -> (r: Result<String, std::io::Error>)
{ unimplemented!() }

fn format_file(path: &P0, check: bool) -> (r: Result<bool>)
    requires check ==> forall|d: Seq<char>| !write_allowed(path, d),
             !check ==> forall|d: Seq<char>| write_allowed(path, d),
{
    let contents = fs_read_to_string(path)?;
    if check {
        Ok(true)
    } else {
        fs_write(path, contents)?;
        Ok(false)
    }
}
}
fn main() {}
