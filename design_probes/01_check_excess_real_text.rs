use vstd::prelude::*;
use full_moon::ast::{Expression, UnOp, BinOp, FunctionBody, FunctionCall, TableConstructor, Var};
use full_moon::ast::span::ContainedSpan;
use full_moon::ast::luau::{IfExpression, InterpolatedString, TypeAssertion};
use full_moon::tokenizer::{TokenReference, Token, TokenType, Symbol, StringLiteralQuoteType, InterpolatedStringKind};
use full_moon::ShortString;

verus! {

#[verifier::external_type_specification]
#[verifier::external_body]
pub struct ExTokenReference(TokenReference);
#[verifier::external_type_specification]
#[verifier::external_body]
pub struct ExContainedSpan(ContainedSpan);
#[verifier::external_type_specification]
#[verifier::external_body]
pub struct ExFunctionBody(FunctionBody);
#[verifier::external_type_specification]
#[verifier::external_body]
pub struct ExFunctionCall(FunctionCall);
#[verifier::external_type_specification]
#[verifier::external_body]
pub struct ExTableConstructor(TableConstructor);
#[verifier::external_type_specification]
#[verifier::external_body]
pub struct ExVar(Var);
#[verifier::external_type_specification]
#[verifier::external_body]
pub struct ExIfExpression(IfExpression);
#[verifier::external_type_specification]
#[verifier::external_body]
pub struct ExInterpolatedString(InterpolatedString);
#[verifier::external_type_specification]
#[verifier::external_body]
pub struct ExTypeAssertion(TypeAssertion);

#[verifier::external_type_specification]
#[verifier::external_body]
pub struct ExShortString(ShortString);
#[verifier::external_type_specification]
#[verifier::external_body]
pub struct ExToken(Token);
#[verifier::external_type_specification]
pub struct ExSymbol(Symbol);
#[verifier::external_type_specification]
pub struct ExStringLiteralQuoteType(StringLiteralQuoteType);
#[verifier::external_type_specification]
pub struct ExInterpolatedStringKind(InterpolatedStringKind);
#[verifier::external_type_specification]
pub struct ExTokenType(TokenType);

pub uninterp spec fn tokref_type(t: &TokenReference) -> TokenType;

pub uninterp spec fn tok_type(t: &Token) -> TokenType;
pub uninterp spec fn tokref_token(t: &TokenReference) -> Token;
pub assume_specification [Token::token_type] (t: &Token) -> (r: &TokenType) ensures *r == tok_type(t);
pub assume_specification [<TokenReference as core::ops::Deref>::deref] (t: &TokenReference) -> (r: &<TokenReference as core::ops::Deref>::Target) ensures *r == tokref_token(t);

pub open spec fn is_ellipsis(e: &Expression) -> bool {
    match e {
        Expression::Symbol(t) => tok_type(&tokref_token(t)) == (TokenType::Symbol{symbol: Symbol::Ellipsis}),
        _ => false,
    }
}


#[verifier::external_type_specification]
pub struct ExUnOp(UnOp);
#[verifier::external_type_specification]
pub struct ExBinOp(BinOp);

#[verifier::external_type_specification]
pub struct ExExpression(Expression);

#[derive(Clone, Copy)]
enum ExpressionContext {
    Standard,
    Prefix,
    TypeAssertion,
    BinaryLHS,
    BinaryLHSExponent,
    UnaryOrBinary,
}

pub open spec fn is_binop(e: &Expression) -> bool {
    e is BinaryOperator
}

fn check_excess_parentheses(internal_expression: &Expression, context: ExpressionContext) -> (r: bool)
    ensures is_binop(internal_expression) ==> !r, is_ellipsis(internal_expression) ==> !r,
    decreases internal_expression,
{
    match internal_expression {
        // Parentheses inside parentheses, not necessary
        Expression::Parentheses { .. } => true,
        // Check whether the expression relating to the UnOp is safe
        Expression::UnaryOperator {
            expression, unop, ..
        } => {
            // If the expression is of the format `(not X) and Y` or `(not X) == Y` etc.
            // Where internal_expression = not X, we should keep the parentheses
            if let ExpressionContext::BinaryLHSExponent = context {
                return false;
            } else if let ExpressionContext::BinaryLHS = context {
                if let UnOp::Not(_) = unop {
                    return false;
                }
            }

            check_excess_parentheses(expression, context)
        }
        Expression::BinaryOperator { .. } => false,
        Expression::TypeAssertion { .. }
            if matches!(
                context,
                ExpressionContext::UnaryOrBinary
                    | ExpressionContext::BinaryLHS
                    | ExpressionContext::BinaryLHSExponent
            ) =>
        {
            false
        }
        Expression::FunctionCall(_) => false,
        Expression::Symbol(token_ref) => {
            match token_ref.token_type() {
                TokenType::Symbol { symbol } => !matches!(symbol, Symbol::Ellipsis),
                _ => true,
            }
        }
        Expression::IfExpression(_) => false,
        _ => true,
    }
}

}
fn main() {}
