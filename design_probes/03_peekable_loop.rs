use vstd::prelude::*;
use full_moon::tokenizer::{TokenReference};
use full_moon::ast::{Stmt, Block};
use std::iter::Peekable;

verus! {

#[verifier::external_type_specification]
#[verifier::external_body]
pub struct ExTokenReference(TokenReference);
#[verifier::external_type_specification]
#[verifier::external_body]
pub struct ExStmt(Stmt);
#[verifier::external_type_specification]
#[verifier::external_body]
pub struct ExBlock(Block);

pub uninterp spec fn block_stmts(b: &Block) -> Seq<(Stmt, Option<TokenReference>)>;

#[verifier::reject_recursive_types(I)]
#[verifier::external_type_specification]
#[verifier::external_body]
pub struct ExPeekable<I>(std::iter::Peekable<I>) where I: std::iter::Iterator;

pub uninterp spec fn pk_rest<I: Iterator>(p: &Peekable<I>) -> Seq<I::Item>;
pub uninterp spec fn it_rest<I: Iterator>(p: &I) -> Seq<I::Item>;

pub assume_specification [full_moon::ast::Block::stmts_with_semicolon] (b: &full_moon::ast::Block) -> (r: impl std::iter::Iterator<Item = &(full_moon::ast::Stmt, std::option::Option<full_moon::tokenizer::TokenReference>)>)
    ensures it_rest(&r).len() == block_stmts(b).len(),
            forall|i: int| 0 <= i < it_rest(&r).len() ==> *(#[trigger] it_rest(&r)[i]) == block_stmts(b)[i];

#[verifier::external_body]
pub fn verif_peekable<I: Iterator>(it: I) -> (r: Peekable<I>)
    ensures pk_rest(&r) == it_rest(&it)
{ it.peekable() }

pub assume_specification<I> [std::iter::Peekable::<I>::peek] (p: &mut std::iter::Peekable<I>) -> (r: std::option::Option<&<I as std::iter::Iterator>::Item>)
    where I: std::iter::Iterator,
    ensures pk_rest(final(p)) == pk_rest(old(p)),
            pk_rest(old(p)).len() == 0 ==> r is None,
            pk_rest(old(p)).len() > 0 ==> r is Some && *r.unwrap() == pk_rest(old(p))[0];

pub assume_specification<I> [<std::iter::Peekable::<I> as Iterator>::next] (p: &mut std::iter::Peekable<I>) -> (r: std::option::Option<<I as std::iter::Iterator>::Item>)
    where I: std::iter::Iterator,
    ensures 
            pk_rest(old(p)).len() == 0 ==> r is None && pk_rest(final(p)) == pk_rest(old(p)),
            pk_rest(old(p)).len() > 0 ==> r is Some && r.unwrap() == pk_rest(old(p))[0] && pk_rest(final(p)) == pk_rest(old(p)).skip(1);

fn format_block(block: &Block) -> (r: usize)
    ensures block_stmts(block).len() >= 2 ==> r == 1,
{
    let mut n: usize = 0;
    let ghost mut k: int = 0;
    let mut stmt_iterator = verif_peekable(block.stmts_with_semicolon());

    while let Some((stmt, semi)) = stmt_iterator.next()
        invariant
            0 <= k <= block_stmts(block).len(),
            pk_rest(&stmt_iterator).len() == block_stmts(block).len() - k,
            (block_stmts(block).len() >= 2 && k >= 1) ==> n == 1,
        ensures k == block_stmts(block).len(),
        decreases pk_rest(&stmt_iterator).len(),
    {
        if stmt_iterator.peek().is_some() { n = 1; }
        proof { k = k + 1; }
    }
    n
}
}
fn main() {}
