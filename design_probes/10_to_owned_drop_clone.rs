use vstd::prelude::*;
use full_moon::tokenizer::{Token, TokenReference};
verus! {
#[verifier::external_type_specification] #[verifier::external_body] pub struct ExToken(Token);
#[verifier::external_type_specification] #[verifier::external_body] pub struct ExTokenReference(TokenReference);

pub assume_specification<T> [<T as std::borrow::ToOwned>::to_owned] (x: &T) -> (r: T)
    where T: std::clone::Clone,
    ensures r == *x;
pub assume_specification<T> [std::mem::drop] (x: T) where T: std::marker::Destruct;

fn f(t: &Token) -> (r: Token) ensures r == *t { t.to_owned() }
fn g<'a>(t: &'a &'a Token) -> (r: &'a Token) { t.to_owned() }
fn h(t: &TokenReference) -> (r: TokenReference) ensures r == *t { t.clone() }
fn d(v: Vec<Token>) { drop(v); }
}
fn main() {}
