use vstd::prelude::*;
use full_moon::node::Node;
use full_moon::tokenizer::{Token, TokenType, Position};
use full_moon::ast::Stmt;

verus! {

#[verifier::external_type_specification]
#[verifier::external_body]
pub struct ExToken(Token);
#[verifier::external_type_specification]
#[verifier::external_body]
pub struct ExStmt(Stmt);
#[verifier::external_type_specification]
#[verifier::external_body]
pub struct ExPosition(Position);

pub trait VNode {
    spec fn v_start(&self) -> Option<Position>;
    spec fn v_end(&self) -> Option<Position>;
    fn start_position(&self) -> (r: Option<Position>) ensures r == self.v_start();
    fn end_position(&self) -> (r: Option<Position>) ensures r == self.v_end();
}

pub uninterp spec fn pos_bytes(p: Position) -> usize;
pub assume_specification [Position::bytes] (p: Position) -> (r: usize) ensures r == pos_bytes(p);

#[derive(Debug, PartialEq, Eq)]
pub enum FormatNode { Skip, NotInRange, Normal }

#[derive(Debug, Copy, Clone)]
pub struct Range {
    pub start: Option<usize>,
    pub end: Option<usize>,
}

#[derive(Debug, Clone, Copy)]
pub struct Context {
    pub range: Option<Range>,
    pub formatting_disabled: bool,
}

impl Context {
    pub fn should_format_node(&self, node: &impl VNode) -> (r: FormatNode)
        ensures self.formatting_disabled ==> r is Skip,
            (r is Normal && self.range is Some && self.range.unwrap().start is Some && node.v_start() is Some) ==> pos_bytes(node.v_start().unwrap()) >= self.range.unwrap().start.unwrap(),
    {
        if self.formatting_disabled {
            return FormatNode::Skip;
        }
        if let Some(range) = self.range {
            match (range.start, node.start_position()) {
                (Some(start_bound), Some(node_start)) if node_start.bytes() < start_bound => {
                    return FormatNode::NotInRange
                }
                _ => (),
            };

            match (range.end, node.end_position()) {
                (Some(end_bound), Some(node_end)) if node_end.bytes() > end_bound => {
                    return FormatNode::NotInRange
                }
                _ => (),
            }
        }
        FormatNode::Normal
    }
}
}
fn main() {}
